package main

// C02(c) — the traversal budget under concurrent readers.  message.go is
// instrumented (sync -> vsync, sync/atomic -> vatomic), so every Load / CAS /
// Store / Add on the budget, the Once and the mutexes are scheduling points;
// 2-3 reader threads dereference objects whose sizes are chosen to collide on
// the budget, optionally with an Unread / ResetReadLimit thread.  All
// interleavings are explored (preemption bound 3, which for these programs of
// <= 14 scheduling points is close to unbounded); the oracle is that the
// granted set and the final budget are the outcome of SOME sequential order of
// a saturating counter.

import (
	"fmt"
	"sort"
	"strings"

	capnp "capnproto.org/go/capnp/v3"
	"capnproto.org/go/capnp/v3/internal/verif/vlib"
	"capnproto.org/go/capnp/v3/internal/vsched"
)

type cop struct {
	kind byte // 'r' read object of size sz bytes, 'u' Unread(sz), 's' ResetReadLimit(sz)
	sz   uint64
}

type cprog struct {
	T       uint64
	threads [][]cop
}

func (p cprog) String() string {
	var parts []string
	for _, th := range p.threads {
		var s []string
		for _, o := range th {
			s = append(s, fmt.Sprintf("%c%d", o.kind, o.sz))
		}
		parts = append(parts, "["+strings.Join(s, " ")+"]")
	}
	return fmt.Sprintf("T=%d %s", p.T, strings.Join(parts, " || "))
}

func cprogs(tier string) []cprog {
	var out []cprog
	sizes := []uint64{8, 16, 24}
	reads := func(a ...uint64) []cop {
		var r []cop
		for _, x := range a {
			r = append(r, cop{'r', x})
		}
		return r
	}
	for _, s1 := range sizes {
		for _, s2 := range sizes {
			ts := map[uint64]bool{0: true, s1: true, s2: true, s1 + s2 - 8: true, s1 + s2: true, s1 + s2 + 8: true}
			var tl []uint64
			for t := range ts {
				tl = append(tl, t)
			}
			sort.Slice(tl, func(i, j int) bool { return tl[i] < tl[j] })
			for _, T := range tl {
				out = append(out, cprog{T, [][]cop{reads(s1), reads(s2)}})
				out = append(out, cprog{T, [][]cop{reads(s1, s2), reads(s2)}})
				out = append(out, cprog{T, [][]cop{reads(s1), reads(s2), reads(8)}})
				out = append(out, cprog{T, [][]cop{reads(s1), reads(s2), {{'u', 8}}}})
				out = append(out, cprog{T, [][]cop{reads(s1), reads(s2), {{'s', 16}}}})
				if tier == "thorough" {
					out = append(out, cprog{T, [][]cop{reads(s1, s2), reads(s2, s1)}})
					out = append(out, cprog{T, [][]cop{reads(s1, 8), reads(s2), {{'u', 8}}}})
					out = append(out, cprog{T, [][]cop{reads(s1), reads(s2), reads(16), {{'s', 8}}}})
				}
			}
		}
	}
	return out
}

// buildMsg makes a message whose root struct has one pointer per requested
// size, pointing at a struct of exactly that many data bytes.
func buildMsg(sizes []uint64) *capnp.Message {
	msg, seg, err := capnp.NewMessage(capnp.SingleSegment(nil))
	if err != nil {
		panic(err)
	}
	root, _ := capnp.NewRootStruct(seg, capnp.ObjectSize{PointerCount: uint16(len(sizes))})
	for i, sz := range sizes {
		st, _ := capnp.NewStruct(seg, capnp.ObjectSize{DataSize: capnp.Size(sz)})
		root.SetPtr(uint16(i), st.ToPtr())
	}
	b, _ := msg.Marshal()
	m2, err := capnp.Unmarshal(b)
	if err != nil {
		panic(err)
	}
	return m2
}

type cres struct {
	granted [][]bool
	final   uint64
	done    int
}

func runC(p cprog, res *cres) {
	var sizes []uint64
	idx := map[[2]int]int{}
	for ti, th := range p.threads {
		for oi, o := range th {
			if o.kind == 'r' {
				idx[[2]int{ti, oi}] = len(sizes)
				sizes = append(sizes, o.sz)
			}
		}
	}
	msg := buildMsg(sizes)
	// the root dereference itself costs 8*len(sizes) bytes: give it that on top
	rootCost := uint64(8 * len(sizes))
	msg.ResetReadLimit(rootCost + p.T)
	rp, err := msg.Root()
	if err != nil {
		panic(err)
	}
	root := rp.Struct()
	res.granted = make([][]bool, len(p.threads))
	body := func(ti int) {
		res.granted[ti] = make([]bool, len(p.threads[ti]))
		for oi, o := range p.threads[ti] {
			switch o.kind {
			case 'r':
				q, err := root.Ptr(uint16(idx[[2]int{ti, oi}]))
				res.granted[ti][oi] = err == nil && q.IsValid()
			case 'u':
				msg.Unread(capnp.Size(o.sz))
			case 's':
				msg.ResetReadLimit(o.sz)
			}
		}
		res.done++
	}
	for ti := 1; ti < len(p.threads); ti++ {
		ti := ti
		vsched.GoNamed(fmt.Sprintf("R%d", ti), func() { body(ti) })
	}
	body(0)
	vsched.WaitUntil("readers", func() bool { return res.done == len(p.threads) })
	res.final = msg.VerifReadLimit()
}

// sequentialOutcomes enumerates every interleaving of the threads' operations
// taken as atomic steps of a saturating counter.
func sequentialOutcomes(p cprog) map[string]bool {
	out := map[string]bool{}
	pos := make([]int, len(p.threads))
	granted := make([][]bool, len(p.threads))
	for i, th := range p.threads {
		granted[i] = make([]bool, len(th))
	}
	var rec func(budget uint64)
	rec = func(budget uint64) {
		doneAll := true
		for ti, th := range p.threads {
			if pos[ti] >= len(th) {
				continue
			}
			doneAll = false
			o := th[pos[ti]]
			oi := pos[ti]
			nb := budget
			g := false
			switch o.kind {
			case 'r':
				if budget >= o.sz {
					nb = budget - o.sz
					g = true
				} else {
					nb = 0
				}
			case 'u':
				nb = budget + o.sz
			case 's':
				nb = o.sz
			}
			granted[ti][oi] = g
			pos[ti]++
			rec(nb)
			pos[ti]--
		}
		if doneAll {
			out[fmt.Sprint(granted, budget)] = true
		}
	}
	rec(p.T)
	return out
}

func concurrentFamily(tier string) vlib.Family {
	progs := cprogs(tier)
	cfg := vsched.Config{MaxPreempt: 3, MaxSteps: 5000}
	if tier == "thorough" {
		cfg.MaxPreempt = 4
	}
	return vlib.Family{
		Name: "c-concurrent-readers", N: int64(len(progs)),
		Describe: func(i int64) interface{} { return progs[i].String() },
		Run: func(i int64, r *vlib.Rec) {
			p := progs[i]
			legal := sequentialOutcomes(p)
			var res *cres
			body := func() { res = &cres{}; runC(p, res) }
			seen := map[string]bool{}
			st, f := vsched.Explore(cfg, body, func(vr *vsched.Result) string {
				if len(vr.Panics) > 0 {
					return "c-panic\x00" + vr.Panics[0]
				}
				if vr.Deadlocked() || vr.Livelock {
					return "c-deadlock\x00" + strings.Join(vr.Blocked, " | ")
				}
				var sum uint64
				for ti, th := range p.threads {
					for oi, o := range th {
						if o.kind == 'r' && res.granted[ti][oi] {
							sum += o.sz
						}
					}
				}
				k := fmt.Sprint(res.granted, res.final)
				seen[k] = true
				if !legal[k] {
					return "c-not-linearizable\x00" + fmt.Sprintf("granted %v, remaining budget %d (bytes handed out %d, T=%d): no sequential order of a saturating counter gives this; legal outcomes: %v", res.granted, res.final, sum, p.T, keys(legal))
				}
				return ""
			})
			r.States += int64(len(st.Configs))
			r.Transitions += st.Steps
			r.Traces += st.Execs
			r.Note("c_executions", st.Execs)
			for k := range seen {
				r.Outcome("c:" + k)
			}
			if len(seen) > 1 {
				r.NonTrivial()
			}
			if f != nil {
				if f.Engine {
					r.Failf("ENGINE:"+f.Msg, "%s", f.Msg)
					return
				}
				parts := strings.SplitN(f.Msg, "\x00", 2)
				r.Failf("concurrent/"+parts[0], "program %s\n%s\nchoices %v", p, parts[1], f.Choices)
			}
		},
	}
}

func keys(m map[string]bool) []string {
	var k []string
	for x := range m {
		k = append(k, x)
	}
	sort.Strings(k)
	return k
}
