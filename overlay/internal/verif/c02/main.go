// C02 — traversal and depth limits bound all work done on a hostile message.
//
// Sequential parts (a) traversal-limit accounting, (b) depth limit on every
// access path, (d) recursive consumers are bounded.  Part (c), concurrent
// readers, runs under the controlled scheduler (engine E2, message.go
// instrumented incl. its atomics) and lives in concurrent.go (family
// c-concurrent-readers).
package main

import (
	"encoding/binary"
	"encoding/hex"
	"fmt"
	"os"
	"runtime/debug"
	"strings"
	"time"

	capnp "capnproto.org/go/capnp/v3"
	"capnproto.org/go/capnp/v3/internal/verif/hostile"
	"capnproto.org/go/capnp/v3/internal/verif/vlib"
)

func hexSegs(segs [][]byte) string {
	var parts []string
	for _, s := range segs {
		parts = append(parts, hex.EncodeToString(s))
	}
	return "[" + strings.Join(parts, " | ") + "]"
}

func isLimitErr(err error) bool { return strings.Contains(err.Error(), "traversal limit") }
func isDepthErr(err error) bool { return strings.Contains(err.Error(), "depth limit") }

// ---- message spaces (as in C01) ----

type space struct {
	name     string
	segWords []int
	alpha    [][]uint64
	n        int64
}

func newSpace(name string, segWords []int, level int) *space {
	sp := &space{name: name, segWords: segWords, n: 1}
	for s, L := range segWords {
		for i := 0; i < L; i++ {
			a := hostile.Alphabet(segWords, s, i, level)
			sp.alpha = append(sp.alpha, a)
			sp.n *= int64(len(a))
		}
	}
	return sp
}

func pointerOnlySpace(L int) *space {
	sp := &space{name: fmt.Sprintf("w%d", L), segWords: []int{L}, n: 1}
	for i := 0; i < L; i++ {
		a := hostile.PointerOnly(L, i)
		sp.alpha = append(sp.alpha, a)
		sp.n *= int64(len(a))
	}
	return sp
}

func (sp *space) contents(i int64) [][]byte {
	out := make([][]byte, len(sp.segWords))
	pos := 0
	for s, L := range sp.segWords {
		b := make([]byte, 8*L)
		for k := 0; k < L; k++ {
			a := sp.alpha[pos]
			binary.LittleEndian.PutUint64(b[8*k:], a[i%int64(len(a))])
			i /= int64(len(a))
			pos++
		}
		out[s] = b
	}
	return out
}

func openMsg(contents [][]byte) *capnp.Message {
	if len(contents) == 1 {
		return &capnp.Message{Arena: capnp.SingleSegment(contents[0])}
	}
	return &capnp.Message{Arena: capnp.MultiSegment(contents)}
}

// ======================= (a) traversal accounting =======================

type aWalker struct {
	r       *vlib.Rec
	m       *capnp.Message
	segs    [][]byte
	T       uint64
	restore bool   // restore the budget after each subtree: every path is charged alone
	sum     uint64 // spec'd size of the objects handed out (on the current path / in total)
	derefs  int
	budget  int
	ctx     string
}

func (w *aWalker) fail(key, format string, a ...interface{}) {
	w.r.Fail(key, fmt.Sprintf("%s T=%d segments=%s: ", w.ctx, w.T, hexSegs(w.segs))+fmt.Sprintf(format, a...))
}

func kindName(o hostile.Obj) string {
	switch o.Kind {
	case hostile.KStruct:
		if o.DW+o.PC == 0 {
			return "struct-empty"
		}
		return "struct"
	case hostile.KList:
		return [...]string{"list-void", "list-bit", "list-byte1", "list-byte2", "list-byte4", "list-byte8", "list-pointer", "list-composite"}[o.ET]
	}
	return "other"
}

// deref performs one library dereference of the pointer stored at
// (seg, word) through f and checks the charge against the shadow decoder.
// ok reports that a struct/list object was handed out.
func (w *aWalker) deref(op string, seg, word int, f func() (capnp.Ptr, error)) (p capnp.Ptr, sh hostile.Obj, ok bool) {
	before := w.m.VerifReadLimit()
	p, err := f()
	after := w.m.VerifReadLimit()
	sh = hostile.Resolve(w.segs, seg, word)
	w.derefs++
	if after > before {
		w.fail("budget-increased/"+op, "remaining budget went from %d to %d", before, after)
	}
	if err != nil {
		switch {
		case isLimitErr(err):
			w.r.Outcome("limit-error")
			if (sh.Kind == hostile.KStruct || sh.Kind == hostile.KList) && before >= sh.ReadHi {
				w.fail("limit-error-with-sufficient-budget/"+kindName(sh), "%s: traversal-limit error with %d bytes left for an object of %d bytes (%+v)", op, before, sh.ReadHi, sh)
			}
		case isDepthErr(err):
			w.r.Outcome("depth-error")
		default:
			w.r.Outcome("other-error")
		}
		return p, sh, false
	}
	if !p.IsValid() || p.Interface().IsValid() {
		if after != before {
			w.fail("charge-without-object/"+op, "null or capability pointer charged %d bytes", before-after)
		}
		w.r.Outcome("null-or-cap")
		return p, sh, false
	}
	// a struct or list was handed out
	libStruct := p.Struct().IsValid()
	if (sh.Kind != hostile.KStruct && sh.Kind != hostile.KList) || libStruct != (sh.Kind == hostile.KStruct) {
		// the library accepts something the spec decoder rejects (C01/C03
		// territory, e.g. a negative composite count): no size to compare
		w.r.Outcome("handed-out-but-spec-decoder-rejects: " + sh.Why)
		return p, sh, false
	}
	w.r.Outcome("handed-out/" + kindName(sh))
	charged := before - after
	switch {
	case before < sh.ReadLo:
		w.fail("handed-out-beyond-budget/"+kindName(sh), "%s: object of %d bytes handed out with only %d bytes left (%+v)", op, sh.ReadLo, before, sh)
	case charged < sh.ReadLo:
		w.fail("undercharge/"+kindName(sh), "%s: charged %d bytes for an object of %d bytes (%+v)", op, charged, sh.ReadLo, sh)
	case charged > sh.ReadHi:
		w.fail("overcharge/"+kindName(sh), "%s: charged %d bytes for an object of %d bytes (%+v)", op, charged, sh.ReadHi, sh)
	}
	w.sum += sh.ReadLo
	if w.sum > w.T {
		w.fail("handed-out-sum-exceeds-limit", "objects of %d bytes in total handed out under a limit of %d", w.sum, w.T)
	}
	return p, sh, true
}

func minInt(a, b int) int {
	if a < b {
		return a
	}
	return b
}

func (w *aWalker) visit(p capnp.Ptr, sh hostile.Obj, depth int) {
	if depth >= 10 || w.budget <= 0 {
		return
	}
	w.budget--
	if s := p.Struct(); s.IsValid() {
		w.strct(s, sh, depth)
		return
	}
	l := p.List()
	if !l.IsValid() || l.Len() <= 0 {
		return
	}
	n := minInt(l.Len(), 3)
	if sh.ET == 6 {
		for i := 0; i < n; i++ {
			i := i
			seg, word := sh.PtrSlot(i)
			w.child("PointerList.At", seg, word, depth, func() (capnp.Ptr, error) { return capnp.PointerList{List: l}.At(i) })
			// the text/data accessors dereference too (leaf operations)
			w.leaf("TextList.At", seg, word, func() (capnp.Ptr, error) { _, err := capnp.TextList{List: l}.At(i); return capnp.Ptr{}, err })
			w.leaf("DataList.At", seg, word, func() (capnp.Ptr, error) { _, err := capnp.DataList{List: l}.At(i); return capnp.Ptr{}, err })
		}
	}
	if sh.ET == 6 || sh.ET == 7 {
		for i := 0; i < n; i++ {
			st := l.Struct(i)
			if st.IsValid() {
				w.strct(st, sh.Elem(i), depth)
			}
		}
	}
}

func (w *aWalker) strct(s capnp.Struct, sh hostile.Obj, depth int) {
	for i := 0; i < minInt(sh.PC, 3); i++ {
		i := i
		seg, word := sh.PtrSlot(i)
		w.child("Struct.Ptr", seg, word, depth, func() (capnp.Ptr, error) { return s.Ptr(uint16(i)) })
	}
}

// leaf: an accessor that dereferences but returns no Ptr; only the budget
// movement can be checked (it must not rise; a successful call on a
// struct/list target must charge at least its spec size).
func (w *aWalker) leaf(op string, seg, word int, f func() (capnp.Ptr, error)) {
	before := w.m.VerifReadLimit()
	_, err := f()
	after := w.m.VerifReadLimit()
	sh := hostile.Resolve(w.segs, seg, word)
	if after > before {
		w.fail("budget-increased/"+op, "remaining budget went from %d to %d", before, after)
	}
	if err == nil && (sh.Kind == hostile.KStruct || sh.Kind == hostile.KList) {
		if before < sh.ReadLo {
			w.fail("handed-out-beyond-budget/"+kindName(sh), "%s succeeded on an object of %d bytes with only %d bytes left", op, sh.ReadLo, before)
		} else if before-after < sh.ReadLo {
			w.fail("undercharge/"+kindName(sh), "%s charged %d bytes for an object of %d bytes", op, before-after, sh.ReadLo)
		}
	}
	if w.restore {
		w.m.ResetReadLimit(before)
	}
}

func (w *aWalker) child(op string, seg, word, depth int, f func() (capnp.Ptr, error)) {
	saved := w.m.VerifReadLimit()
	savedSum := w.sum
	p, sh, ok := w.deref(op, seg, word, f)
	if ok {
		w.visit(p, sh, depth+1)
	}
	if w.restore {
		w.m.ResetReadLimit(saved)
		w.sum = savedSum
	}
}

func runTraversal(r *vlib.Rec, contents [][]byte) {
	nontrivial := false
	for T := uint64(0); T <= 64; T += 8 {
		for _, restore := range []bool{true, false} {
			m := openMsg(contents)
			m.ResetReadLimit(T)
			w := &aWalker{r: r, m: m, segs: contents, T: T, restore: restore, budget: 400, ctx: map[bool]string{true: "per-path", false: "cumulative"}[restore]}
			w.child("Message.Root", 0, 0, 0, func() (capnp.Ptr, error) { return m.Root() })
			if w.derefs > 1 {
				nontrivial = true
			}
			r.Note("dereferences_checked", int64(w.derefs))
		}
	}
	// documented budget increases: Unread and ResetReadLimit do exactly what they say
	m := openMsg(contents)
	m.ResetReadLimit(16)
	m.Unread(8)
	if got := m.VerifReadLimit(); got != 24 {
		r.Failf("unread-wrong", "ResetReadLimit(16); Unread(8) leaves %d", got)
	}
	if nontrivial {
		r.NonTrivial()
	}
}

// ======================= (b) depth limit =======================

type bWalker struct {
	r      *vlib.Rec
	segs   [][]byte
	D      int
	steps  int64
	trace  []string
	failed bool // stop exploring this (message, D) after the first witness
}

func (w *bWalker) failDepth(viaElem bool, derefs int) {
	w.failed = true
	key := "depth-limit-exceeded/struct-and-pointer-list-steps-only"
	if viaElem {
		key = "depth-limit-exceeded/path-through-list-element"
	}
	w.r.Fail(key, fmt.Sprintf("D=%d segments=%s: %d successful non-null dereferences along the path %s", w.D, hexSegs(w.segs), derefs, strings.Join(w.trace, " ")))
}

// dfs explores all access paths of at most maxLen steps from object p.
// derefs = successful non-null dereferences so far (Root included).
func (w *bWalker) dfs(p capnp.Ptr, derefs, length, maxLen int, viaElem bool) {
	if length >= maxLen || w.failed {
		return
	}
	try := func(name string, q capnp.Ptr, err error, elem bool) {
		if w.failed {
			return
		}
		w.steps++
		if err != nil || !q.IsValid() || q.Interface().IsValid() {
			return
		}
		w.trace = append(w.trace, name)
		if derefs+1 > w.D {
			w.failDepth(viaElem || elem, derefs+1)
		} else {
			w.dfs(q, derefs+1, length+1, maxLen, viaElem || elem)
		}
		w.trace = w.trace[:len(w.trace)-1]
	}
	if s := p.Struct(); s.IsValid() {
		for i := 0; i < minInt(int(s.Size().PointerCount), 2); i++ {
			q, err := s.Ptr(uint16(i))
			try(fmt.Sprintf("Ptr(%d)", i), q, err, false)
		}
		return
	}
	l := p.List()
	if !l.IsValid() || l.Len() <= 0 {
		return
	}
	n := minInt(l.Len(), 2)
	for i := 0; i < n; i++ {
		q, err := capnp.PointerList{List: l}.At(i)
		if err == nil || !strings.Contains(err.Error(), "mismatched") {
			try(fmt.Sprintf("At(%d)", i), q, err, false)
		}
		st := l.Struct(i)
		if !st.IsValid() {
			continue
		}
		for j := 0; j < minInt(int(st.Size().PointerCount), 2); j++ {
			q, err := st.Ptr(uint16(j))
			try(fmt.Sprintf("Struct(%d).Ptr(%d)", i, j), q, err, true)
		}
	}
}

// step applies one abstract step to p; ok=false if it does not apply or fails.
// Abstract steps: 0,1 = Struct.Ptr(i); 2,3 = PointerList.At(i); 4..7 = List.Struct(i).Ptr(j).
func step(p capnp.Ptr, st int) (q capnp.Ptr, ok bool) {
	var err error
	switch {
	case st < 2:
		s := p.Struct()
		if !s.IsValid() {
			return q, false
		}
		q, err = s.Ptr(uint16(st))
	case st < 4:
		l := p.List()
		if !l.IsValid() || st-2 >= l.Len() {
			return q, false
		}
		q, err = capnp.PointerList{List: l}.At(st - 2)
	default:
		l := p.List()
		i, j := (st-4)/2, (st-4)%2
		if !l.IsValid() || i >= l.Len() {
			return q, false
		}
		e := l.Struct(i)
		if !e.IsValid() {
			return q, false
		}
		q, err = e.Ptr(uint16(j))
	}
	if err != nil || !q.IsValid() || q.Interface().IsValid() {
		return q, false
	}
	return q, true
}

var stepName = []string{"Ptr(0)", "Ptr(1)", "At(0)", "At(1)", "Struct(0).Ptr(0)", "Struct(0).Ptr(1)", "Struct(1).Ptr(0)", "Struct(1).Ptr(1)"}

// periodic walks, for every step word of length <= 4 whose first period
// succeeds, the periodic path word^k to length D+6.
func (w *bWalker) periodic(root capnp.Ptr) {
	var word []int
	var rec func(p capnp.Ptr)
	run := func() {
		// walk word^k from the root
		p := root
		derefs := 1
		viaElem := false
		for n := 0; n < w.D+6; n++ {
			st := word[n%len(word)]
			q, ok := step(p, st)
			w.steps++
			if !ok {
				return
			}
			derefs++
			if st >= 4 {
				viaElem = true
			}
			if derefs > w.D {
				w.trace = w.trace[:0]
				for _, s := range word {
					w.trace = append(w.trace, stepName[s])
				}
				w.trace = append(w.trace, fmt.Sprintf("(period, repeated to %d steps)", n+1))
				w.failDepth(viaElem, derefs)
				return
			}
			p = q
		}
	}
	rec = func(p capnp.Ptr) {
		if w.failed {
			return
		}
		if len(word) > 0 {
			run()
		}
		if len(word) == 4 || w.failed {
			return
		}
		for st := 0; st < 8; st++ {
			q, ok := step(p, st)
			w.steps++
			if !ok {
				continue
			}
			word = append(word, st)
			rec(q)
			word = word[:len(word)-1]
		}
	}
	rec(root)
}

var smallDs = []int{1, 2, 3, 4, 5, 6, 7, 8, 9}
var bigDs = []int{63, 64, 65}

func runDepth(r *vlib.Rec, contents [][]byte) {
	nontrivial := false
	for _, D := range append(append([]int{}, smallDs...), bigDs...) {
		m := openMsg(contents)
		m.DepthLimit = uint(D)
		m.ResetReadLimit(1 << 40)
		w := &bWalker{r: r, segs: contents, D: D}
		root, err := m.Root()
		if err != nil || !root.IsValid() || root.Interface().IsValid() {
			if err != nil && isDepthErr(err) {
				r.Outcome("root-depth-error")
			}
			continue
		}
		w.trace = []string{"Root"}
		if D <= 9 {
			w.dfs(root, 1, 0, D+3, false)
		} else {
			w.periodic(root)
		}
		if w.steps > 4 {
			nontrivial = true
		}
		r.Note("path_steps", w.steps)
	}
	if nontrivial {
		r.NonTrivial()
	}
}

// ======================= (d) consumers are bounded =======================

type consumer struct {
	name  string
	typed bool
	run   func(p capnp.Ptr)
}

var consumers = []consumer{
	{"SetRoot", false, func(p capnp.Ptr) {
		if m2, _, err := capnp.NewMessage(capnp.SingleSegment(nil)); err == nil {
			m2.SetRoot(p)
		}
	}},
	{"Canonicalize", false, func(p capnp.Ptr) {
		if s := p.Struct(); s.IsValid() {
			capnp.Canonicalize(s)
		}
	}},
	{"Equal", false, func(p capnp.Ptr) { capnp.Equal(p, p) }},
	{"text.Marshal", true, func(p capnp.Ptr) {
		if s := p.Struct(); s.IsValid() {
			hostile.TextMarshal(hostile.Types[0], s)
		}
	}},
	{"pogs.Extract", true, func(p capnp.Ptr) {
		if s := p.Struct(); s.IsValid() {
			hostile.PogsExtract(hostile.Types[0], s)
		}
	}},
}

const (
	// a consumer may legitimately dereference every object of the depth-bounded
	// unfolding twice (Equal(p,p) reads both sides), the others once
	boundFactor = 2
	// The probe budget is kept small: a recursion that only the budget stops
	// is budget/8 levels deep and the library's error annotation makes the
	// unwinding quadratic in that depth.
	minProbe = 2 << 10
	maxProbe = 64 << 10
)

// depthBound returns the spec'd traversal volume of the message unfolded to
// D levels (x boundFactor), or ok=false if it cannot serve as a bound.
func depthBound(contents [][]byte, D int) (bound uint64, ok bool) {
	cost, _, _, capped := hostile.UnfoldCost(contents, D, 5000)
	if capped {
		return 0, false
	}
	return boundFactor*cost + 64, true
}

// flagged runs consumer c on the message under depth limit D with a probe
// budget of at least twice the bound and reports whether it dereferenced
// more than the depth-bounded unfolding of the message contains, i.e.
// whether only the traversal budget, not the depth limit, stopped it.
func flagged(c consumer, contents [][]byte, D int) (isFlagged, conclusive bool, used, bound uint64) {
	bound, ok := depthBound(contents, D)
	return flaggedB(c, contents, D, bound, ok)
}

func flaggedB(c consumer, contents [][]byte, D int, bound uint64, ok bool) (isFlagged, conclusive bool, used, bnd uint64) {
	if !ok || 2*bound > maxProbe {
		return false, false, 0, bound
	}
	probe := uint64(minProbe)
	if 2*bound > probe {
		probe = 2 * bound
	}
	m := openMsg(contents)
	m.DepthLimit = uint(D)
	m.ResetReadLimit(probe)
	root, err := m.Root()
	if err != nil || !root.IsValid() {
		return false, true, 0, bound
	}
	c.run(root)
	used = probe - m.VerifReadLimit()
	return used > bound, true, used, bound
}

func runConsumers(r *vlib.Rec, contents [][]byte, cs []consumer, Ds []int) {
	_, cyclic := hostile.Unfold(contents, 12, 5000)
	if !cyclic {
		r.Outcome("consumers: acyclic message (skipped)")
		return
	}
	r.NonTrivial()
	done := map[string]bool{} // one witness per consumer and message is enough
	for _, D := range Ds {
		bnd, bok := depthBound(contents, D)
		for _, c := range cs {
			if done[c.name] {
				continue
			}
			// T = 64 bytes: must return
			m := openMsg(contents)
			m.DepthLimit = uint(D)
			m.ResetReadLimit(64)
			if root, err := m.Root(); err == nil && root.IsValid() {
				c.run(root)
			}
			// mid budget: depth limit must be what stops the consumer
			fl, conclusive, used, bound := flaggedB(c, contents, D, bnd, bok)
			switch {
			case !conclusive:
				r.Note("consumer_runs_without_usable_depth_bound", 1)
				continue
			case fl:
				done[c.name] = true
				r.Fail("consumer-not-bounded-by-depth-limit/"+c.name,
					fmt.Sprintf("D=%d segments=%s: %s dereferenced %d bytes of objects; the whole message unfolded to %d levels holds %d bytes (x%d allowance = %d): the depth limit did not stop it, only the probe's traversal budget did (the recursion depth grows with the budget, 64 MiB by default)",
						D, hexSegs(contents), c.name, used, D, (bound-64)/boundFactor, boundFactor, bound))
				continue
			}
			r.Note("consumer_runs_bounded_by_depth", 1)
			// default budget: must return (safe to run: the depth limit is
			// effective for this message and the unfolding is small)
			if bound <= 64<<10 {
				m := openMsg(contents)
				m.DepthLimit = uint(D)
				if root, err := m.Root(); err == nil && root.IsValid() {
					c.run(root)
					r.Note("consumer_runs_default_budget", 1)
				}
			}
		}
	}
}

// typed cyclic frames: 6-word Z-shaped messages (see typedFrame).
type typedSpace struct {
	alpha [][]uint64
	n     int64
}

func newTypedSpace() *typedSpace {
	// w0 root -> struct(1 data, 1 ptr) at w1; w1 = Z discriminant; w2 = its pointer;
	// w3 = tag / pointer; w4 = discriminant / pointer; w5 = pointer
	const L = 6
	which := []uint64{1, 25, 26} // zz, zvec, zvecvec
	ptrsAt := func(i int) []uint64 {
		t0 := i + 1
		var p []uint64
		p = append(p, 0)
		p = append(p, hostile.StructPtr(int32(1-t0), 1, 1)) // Z at w1
		p = append(p, hostile.StructPtr(int32(4-t0), 1, 1)) // Z at w4
		p = append(p, hostile.ListPtr(int32(3-t0), 7, 2))   // composite, tag at w3, elements w4,w5
		p = append(p, hostile.ListPtr(int32(2-t0), 6, 1))   // pointer list [w2]
		p = append(p, hostile.ListPtr(int32(5-t0), 6, 1))   // pointer list [w5]
		p = append(p, hostile.ListPtr(int32(2-t0), 6, 2))   // pointer list [w2,w3]
		p = append(p, hostile.FarPtr(0, 2, false))          // far -> pad w2
		p = append(p, hostile.FarPtr(0, 5, false))          // far -> pad w5
		return p
	}
	ts := &typedSpace{n: 1}
	ts.alpha = [][]uint64{
		{hostile.StructPtr(0, 1, 1)},
		which,
		ptrsAt(2),
		append([]uint64{hostile.Tag(1, 1, 1), hostile.Tag(2, 0, 1)}, ptrsAt(3)...),
		append(append([]uint64{}, which...), ptrsAt(4)...),
		ptrsAt(5),
	}
	for _, a := range ts.alpha {
		ts.n *= int64(len(a))
	}
	return ts
}

func (ts *typedSpace) contents(i int64) [][]byte {
	b := make([]byte, 8*len(ts.alpha))
	for k, a := range ts.alpha {
		binary.LittleEndian.PutUint64(b[8*k:], a[i%int64(len(a))])
		i /= int64(len(a))
	}
	return [][]byte{b}
}

// defaultBudgetFamily: one case per consumer.  It scans the cyclic messages
// in enumeration order for the first (message, D) on which the consumer is
// NOT bounded by the depth limit (probe) and runs it there with the default
// 64 MiB budget — the real thing — in a child process of its own: unbounded
// recursion overflows the 48 MiB stack cap (a Go fatal error) and is
// reported as a violation of this case without costing the runner a worker.
// If no case is flagged, the consumer is run with the default budget on the
// first three single-path cycles at D=9 and D=64 (must return).
func defaultBudgetFamily(spaces []*space, ts *typedSpace) vlib.Family {
	return vlib.Family{
		Name: "d-default-budget-isolated", N: int64(len(consumers)),
		Run: func(ci int64, r *vlib.Rec) {
			c := consumers[ci]
			runIsolated := func(contents [][]byte, D int, why string) {
				r.NonTrivial()
				payload := fmt.Sprintf("%d|%d|%s", ci, D, hex.EncodeToString(contents[0]))
				ok, class, _, detail := hostile.RunChild(payload, 100*time.Second)
				if ok {
					r.Outcome(why + ": returned under the default budget")
					return
				}
				r.Fail("consumer-dies-with-default-budget/"+c.name+"/"+class,
					fmt.Sprintf("D=%d segments=%s (%s): %s with the default 64 MiB traversal budget kills the process (%s)\n%s", D, hexSegs(contents), why, c.name, class, detail))
			}
			plain := 0
			try := func(contents [][]byte) bool {
				v, cyc := hostile.Unfold(contents, 12, 5000)
				if !cyc {
					return false
				}
				for _, D := range smallDs {
					if fl, ok, _, _ := flagged(c, contents, D); ok && fl {
						runIsolated(contents, D, "first case flagged by the probe")
						return true
					}
				}
				if v <= 13 && plain < 3 {
					// single-path cycle the probe does not flag: the depth limit works
					// here, so the default budget is safe and must return
					plain++
					runIsolated(contents, 9, "unflagged single-path cycle")
					runIsolated(contents, 64, "unflagged single-path cycle")
				}
				return false
			}
			if c.typed {
				for i := int64(0); i < ts.n && i < 8000; i++ {
					if try(ts.contents(i)) {
						return
					}
				}
			} else {
				for _, sp := range spaces {
					lim := sp.n
					if lim > 20000 {
						lim = 20000
					}
					for i := int64(0); i < lim; i++ {
						if try(sp.contents(i)) {
							return
						}
					}
				}
			}
			r.Outcome("no unbounded case found for " + c.name)
		},
		Describe: func(ci int64) interface{} {
			return "consumer " + consumers[ci].name + ": first cyclic message/D flagged by the probe, run with the default traversal budget in an isolated child process"
		},
	}
}

func childMain(payload string) {
	parts := strings.Split(payload, "|")
	var ci, D int
	fmt.Sscan(parts[0], &ci)
	fmt.Sscan(parts[1], &D)
	b, err := hex.DecodeString(parts[2])
	if err != nil {
		fmt.Fprintln(os.Stderr, "bad payload")
		os.Exit(3)
	}
	m := openMsg([][]byte{b})
	m.DepthLimit = uint(D)
	root, err := m.Root()
	if err != nil || !root.IsValid() {
		os.Exit(0)
	}
	hostile.ChildStep(consumers[ci].name)
	consumers[ci].run(root)
	os.Exit(0)
}

func selfTest() error {
	// the error-text classification this harness relies on
	b := make([]byte, 24)
	binary.LittleEndian.PutUint64(b, hostile.StructPtr(0, 2, 0))
	m := openMsg([][]byte{b})
	m.ResetReadLimit(8)
	if _, err := m.Root(); err == nil || !isLimitErr(err) {
		return fmt.Errorf("a 16-byte struct under an 8-byte limit does not yield a 'traversal limit' error: %v", err)
	}
	if m.VerifReadLimit() != 0 {
		return fmt.Errorf("hook VerifReadLimit does not see the saturated budget")
	}
	binary.LittleEndian.PutUint64(b, hostile.StructPtr(-1, 0, 1)) // self-pointing struct
	m = openMsg([][]byte{b[:8]})
	m.DepthLimit = 2
	p, err := m.Root()
	for i := 0; err == nil && i < 5; i++ {
		p, err = p.Struct().Ptr(0)
	}
	if err == nil || !isDepthErr(err) {
		return fmt.Errorf("self-pointing struct under D=2 does not yield a 'depth limit' error: %v", err)
	}
	// shadow decoder sanity on a well-formed message built by the library
	msg, seg, _ := capnp.NewMessage(capnp.SingleSegment(nil))
	root, _ := capnp.NewRootStruct(seg, capnp.ObjectSize{DataSize: 8, PointerCount: 2})
	l, _ := capnp.NewCompositeList(seg, capnp.ObjectSize{DataSize: 8, PointerCount: 1}, 3)
	root.SetPtr(0, l.ToPtr())
	t, _ := capnp.NewText(seg, "hello")
	root.SetPtr(1, t.ToPtr())
	s0, _ := msg.Segment(0)
	segs := [][]byte{s0.Data()}
	o := hostile.Resolve(segs, 0, 0)
	if o.Kind != hostile.KStruct || o.ReadLo != 24 {
		return fmt.Errorf("shadow decoder: root %+v", o)
	}
	ls, lw := o.PtrSlot(0)
	if lo := hostile.Resolve(segs, ls, lw); lo.Kind != hostile.KList || lo.ET != 7 || lo.N != 3 || lo.ReadLo != 48 {
		return fmt.Errorf("shadow decoder: composite list %+v", lo)
	}
	ts, tw := o.PtrSlot(1)
	if to := hostile.Resolve(segs, ts, tw); to.Kind != hostile.KList || to.ET != 2 || to.N != 6 || to.ReadLo != 6 {
		return fmt.Errorf("shadow decoder: text %+v", to)
	}
	for _, ty := range hostile.Types[:1] {
		if _, err := hostile.PogsExtract(ty, root); err != nil {
			return fmt.Errorf("pogs.Extract on a plain struct: %v", err)
		}
	}
	return nil
}

func families(tier string) []vlib.Family {
	thorough := tier == "thorough"
	var fams []vlib.Family

	// (a) traversal accounting
	aSpaces := []*space{
		newSpace("seg-1-full", []int{1}, hostile.Full),
		newSpace("seg-2-full", []int{2}, hostile.Full),
		newSpace("multi-1-1-core", []int{1, 1}, hostile.Core),
	}
	if thorough {
		aSpaces = append(aSpaces,
			newSpace("seg-3-core", []int{3}, hostile.Core),
			newSpace("multi-1-2-mini", []int{1, 2}, hostile.Mini),
			newSpace("multi-2-1-mini", []int{2, 1}, hostile.Mini),
			newSpace("seg-4-micro", []int{4}, hostile.Micro),
			newSpace("multi-2-2-micro", []int{2, 2}, hostile.Micro))
	} else {
		aSpaces = append(aSpaces,
			newSpace("seg-3-mini", []int{3}, hostile.Mini),
			newSpace("multi-1-2-micro", []int{1, 2}, hostile.Micro),
			newSpace("multi-2-1-micro", []int{2, 1}, hostile.Micro))
	}
	for _, sp := range aSpaces {
		sp := sp
		fams = append(fams, vlib.Family{
			Name: "a-traversal-" + sp.name, N: sp.n,
			Run:      func(i int64, r *vlib.Rec) { runTraversal(r, sp.contents(i)) },
			Describe: func(i int64) interface{} { return map[string]interface{}{"segments_hex": hexSegs(sp.contents(i))} },
		})
	}

	// (b) depth limit, (d) consumers: 1-segment pointer-only messages
	var pSpaces []*space
	maxL := 4
	for L := 1; L <= maxL; L++ {
		pSpaces = append(pSpaces, pointerOnlySpace(L))
	}
	for _, sp := range pSpaces {
		sp := sp
		fams = append(fams, vlib.Family{
			Name: "b-depth-" + sp.name, N: sp.n,
			Run:      func(i int64, r *vlib.Rec) { runDepth(r, sp.contents(i)) },
			Describe: func(i int64) interface{} { return map[string]interface{}{"segments_hex": hexSegs(sp.contents(i))} },
		})
	}
	allDs := append(append([]int{}, smallDs...), bigDs...)
	for _, sp := range pSpaces {
		sp := sp
		if len(sp.alpha) == 4 && !thorough {
			continue // 1.3M messages x 12 D x 3 consumers x 3 budgets: thorough only
		}
		fams = append(fams, vlib.Family{
			Name: "d-consumers-" + sp.name, N: sp.n,
			Run:      func(i int64, r *vlib.Rec) { runConsumers(r, sp.contents(i), consumers[:3], allDs) },
			Describe: func(i int64) interface{} { return map[string]interface{}{"segments_hex": hexSegs(sp.contents(i))} },
		})
	}
	ts := newTypedSpace()
	fams = append(fams, vlib.Family{
		Name: "d-consumers-typed-Z-frames", N: ts.n,
		Run:      func(i int64, r *vlib.Rec) { runConsumers(r, ts.contents(i), consumers, allDs) },
		Describe: func(i int64) interface{} { return map[string]interface{}{"segments_hex": hexSegs(ts.contents(i))} },
	})
	fams = append(fams, defaultBudgetFamily(pSpaces[1:], ts))

	// C02(c) — concurrent readers (engine E2): see concurrent.go
	fams = append(fams, concurrentFamily(tier))
	return fams
}

func main() {
	if p := hostile.ChildPayload(); p != "" {
		childMain(p)
		return
	}
	debug.SetGCPercent(400)
	vlib.Main(vlib.Spec{
		ID:    "C02",
		Level: "exploration",
		Rule:  "(a) every message of the C01 word alphabets (1-2 segments, <= 4 words) x traversal limit T in {0,8,...,64} x every access path (Struct.Ptr, PointerList.At, List.Struct(i).Ptr, TextList/DataList.At; first 3 indices, <= 10 levels), each dereference checked against an independent spec decoder: charge == spec size (struct: data+pointer sections; list: count x element size, zero-sized element = one word; bit list: between ceil(n/8) bytes and one word per element), no object handed out beyond the budget, traversal-limit error only when the budget is short, budget never rises, per path and cumulatively; (b) every 1-segment message of <= 4 words over the pointer-only alphabet x D in 1..9 x all access paths of length <= D+3, and D in {63,64,65} x all periodic paths (period = any step word of length <= 4) of length D+6: successful non-null dereferences along a path <= D; (d) SetRoot, Canonicalize, Equal on every cyclic message of (b), plus text.Marshal/pogs.Extract(Z) on every cyclic 6-word Z-shaped frame, for every D and T=64 bytes (must return), a probe budget of 2-64 KiB, at least twice the bound (must not dereference more than 2x the message unfolded to D levels holds, i.e. the depth limit and not the budget stops it), T=default where that bound is <= 64 KiB (must return); plus, per consumer, one run in an isolated child process with the default budget on the first case the probe flags (or on the first single-path cycles if none is flagged). A case is non-trivial if at least one object was handed out beyond the root pointer (a), a path of more than 4 steps was walked (b), or the message is cyclic (d).",
		Assumptions: []string{
			"part (c), concurrent readers, is not covered by this harness (needs engine E2)",
			"hostile.Resolve (independent decoder written from the encoding spec) supplies the spec'd object sizes; it is self-checked against a library-built message on every run",
			"errors are classified by the substrings 'traversal limit' / 'depth limit' of the library's error text (self-checked on every run)",
			"exact charging for bit lists is left open by the statement: any charge between ceil(n/8) bytes and 8 bytes per element is accepted",
			"(d): cyclic messages whose depth-bounded unfolding exceeds 16 KiB of objects (fan-out >= 2 with D >= 8) are run with T=64 only; unbounded recursion at the default budget is provoked for at most one case per consumer, in a child process",
		},
		Families: families,
		SelfTest: selfTest,
	})
}
