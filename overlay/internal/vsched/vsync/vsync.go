// Package vsync stands in for package sync in instrumented sources.
package vsync

import "capnproto.org/go/capnp/v3/internal/vsched"

type Mutex = vsched.Mutex
type WaitGroup = vsched.WaitGroup
type Once = vsched.Once
