// Package vsched is a controlled (cooperative) scheduler for model checking
// the concurrent packages of this repository.
//
// Instrumented copies of the repository's sources (see /verif/tools/instrument)
// call into this package at every synchronisation operation.  While an
// execution is active exactly one controlled goroutine runs at a time; at every
// hooked operation the running goroutine yields to the scheduler, which picks
// the next goroutine to run from the set of *enabled* ones.  The sequence of
// picks is dictated by the explorer (explore.go), which enumerates all
// sequences up to a preemption / deviation bound.
//
// Outside an execution (S == nil) every hook falls back to the real primitive,
// so instrumented code also works free-running (used for the -race pass).
package vsched

import (
	"fmt"
	"hash/fnv"
	"reflect"
	"runtime"
	"runtime/debug"
	"sort"
	"strings"
	"sync"
)

// Point kinds.
const (
	KThread = 'T' // which enabled thread runs next
	KSelect = 'S' // which ready select case fires
	KEnv    = 'E' // environment answer (fault injection, map order, ...)
)

// Decision is one recorded choice point with more than one alternative.
type Decision struct {
	Kind   byte
	N      int    // number of alternatives
	Chosen int    // index taken
	Free   bool   // KThread: the running thread was not enabled, any choice is free
	Sig    uint32 // signature of the alternatives, for divergence detection
	Desc   string // human readable: alternatives
}

type thread struct {
	id     int
	name   string
	wake   chan struct{}
	exited chan struct{}
	ready  func() bool // nil: enabled
	op     string      // pending operation
	done   bool
	fn     func()
	idle   bool // parked in WaitQuiescent
}

// Result is what one execution produced.
type Result struct {
	Decisions []Decision
	Steps     int      // scheduling points passed (transitions)
	Log       []string // events appended with Logf
	Panics    []string // panics raised in controlled threads (value + stack)
	Blocked   []string // threads still blocked when nothing was enabled: "name: op"
	Livelock  bool     // step limit hit
	Diverged  string   // non-empty: replay diverged from the recorded prefix (engine error)
	Threads   int
}

// Deadlocked reports whether some thread was left blocked.
func (r *Result) Deadlocked() bool { return len(r.Blocked) > 0 }

// Sched is the state of one execution.
type Sched struct {
	threads  []*thread
	cur      *thread
	prefix   []int
	prefSig  []uint32
	aborting bool
	ended    bool
	finished chan struct{}
	res      *Result
	maxSteps int
	nextObj  int
}

// S is the active execution (nil when free-running).
var S *Sched

// WantDesc makes every decision carry a readable description (replay mode).
var WantDesc bool

func strSig(x string) uint32 {
	h := fnv.New32a()
	h.Write([]byte(x))
	return h.Sum32()
}

// Active reports whether a controlled execution is running.
func Active() bool { return S != nil && !S.aborting }

// Logf appends an event to the execution's log.
func Logf(format string, a ...interface{}) {
	if s := S; s != nil && !s.aborting {
		s.res.Log = append(s.res.Log, fmt.Sprintf(format, a...))
	}
}

// Tid returns the id of the running controlled thread (-1 if none).
func Tid() int {
	if s := S; s != nil && s.cur != nil {
		return s.cur.id
	}
	return -1
}

// Step returns the number of scheduling points passed so far.
func Step() int {
	if s := S; s != nil {
		return s.res.Steps
	}
	return 0
}

type abortSentinel struct{}

// Run executes body as thread 0 under the scheduler, following prefix and
// taking alternative 0 afterwards.  prefSig, if non-nil, holds the signatures
// recorded for the prefix positions; a mismatch is reported in Result.Diverged.
func Run(prefix []int, prefSig []uint32, maxSteps int, body func()) *Result {
	if S != nil {
		panic("vsched: nested Run")
	}
	if maxSteps <= 0 {
		maxSteps = 100000
	}
	s := &Sched{prefix: prefix, prefSig: prefSig, finished: make(chan struct{}), res: &Result{}, maxSteps: maxSteps}
	S = s
	t := s.newThread("main", body)
	s.cur = t
	t.wake <- struct{}{}
	<-s.finished
	// tear down: unwind every goroutine that has not exited, one at a time
	s.aborting = true
	for _, th := range s.threads {
		select {
		case <-th.exited:
			continue
		default:
		}
		select {
		case th.wake <- struct{}{}:
		default:
		}
		<-th.exited
	}
	s.res.Threads = len(s.threads)
	S = nil
	return s.res
}

func (s *Sched) newThread(name string, fn func()) *thread {
	t := &thread{id: len(s.threads), name: name, wake: make(chan struct{}, 1), exited: make(chan struct{}), fn: fn, op: "start"}
	s.threads = append(s.threads, t)
	go func() {
		defer close(t.exited)
		<-t.wake
		if s.aborting {
			return
		}
		defer func() {
			if s.aborting {
				recover()
				return
			}
			if p := recover(); p != nil {
				if _, ok := p.(abortSentinel); !ok {
					s.res.Panics = append(s.res.Panics, fmt.Sprintf("%v\n%s", p, trimStack(debug.Stack())))
				}
				t.done = true
				s.end()
				return
			}
			t.done = true
			s.schedule(t)
		}()
		fn()
	}()
	return t
}

func trimStack(b []byte) string {
	lines := strings.Split(string(b), "\n")
	var out []string
	for i := 0; i < len(lines); i++ {
		l := lines[i]
		if strings.Contains(l, "runtime/debug.Stack") || strings.Contains(l, "runtime/panic.go") || strings.Contains(l, "vsched.(*Sched).newThread") {
			i++
			continue
		}
		out = append(out, l)
		if len(out) > 40 {
			break
		}
	}
	return strings.Join(out, "\n")
}

// end terminates the execution (called by the running goroutine).
func (s *Sched) end() {
	if s.ended {
		return
	}
	s.ended = true
	for _, t := range s.threads {
		if !t.done {
			s.res.Blocked = append(s.res.Blocked, fmt.Sprintf("%s: %s", t.name, t.op))
		}
	}
	close(s.finished)
}

// decide records a decision among n alternatives and returns the index taken.
func (s *Sched) decide(kind byte, n int, free bool, sig uint32, desc func() string) int {
	if n <= 1 {
		return 0
	}
	i := len(s.res.Decisions)
	d := ""
	if WantDesc {
		d = desc()
	}
	sig = sig*31 + uint32(kind)*7 + uint32(n)
	c := 0
	if i < len(s.prefix) {
		c = s.prefix[i]
		if s.prefSig != nil && i < len(s.prefSig) && s.prefSig[i] != sig && s.res.Diverged == "" {
			s.res.Diverged = fmt.Sprintf("decision %d: recorded signature %08x, now %08x (%c %s)", i, s.prefSig[i], sig, kind, d)
		}
		if c >= n {
			if s.res.Diverged == "" {
				s.res.Diverged = fmt.Sprintf("decision %d: choice %d out of range %d (%c %s)", i, c, n, kind, d)
			}
			c = 0
		}
	}
	s.res.Decisions = append(s.res.Decisions, Decision{Kind: kind, N: n, Chosen: c, Free: free, Sig: sig, Desc: d})
	return c
}

// schedule is called by thread `from` when it reaches a point (its op/ready
// fields are set) or has finished.  It returns when `from` is chosen to run
// again (never, if from.done).
func (s *Sched) schedule(from *thread) {
	if s.ended {
		if !from.done {
			s.park(from)
		}
		return
	}
	s.res.Steps++
	if s.res.Steps > s.maxSteps {
		s.res.Livelock = true
		s.end()
		if !from.done {
			s.park(from)
		}
		return
	}
	var en []*thread
	fromEnabled := !from.done && (from.ready == nil || from.ready())
	if fromEnabled {
		en = append(en, from)
	}
	for _, t := range s.threads {
		if t == from || t.done {
			continue
		}
		if t.ready == nil || t.ready() {
			en = append(en, t)
		}
	}
	if len(en) == 0 {
		// quiescence: hand control to a thread parked in WaitQuiescent
		for _, t := range s.threads {
			if t.idle && !t.done {
				t.idle = false
				en = append(en, t)
				break
			}
		}
	}
	if len(en) == 0 {
		s.end()
		if !from.done {
			s.park(from)
		}
		return
	}
	sig := uint32(2166136261)
	for _, t := range en {
		sig = (sig ^ uint32(t.id)) * 16777619
		for i := 0; i < len(t.op); i++ {
			sig = (sig ^ uint32(t.op[i])) * 16777619
		}
	}
	idx := s.decide(KThread, len(en), !fromEnabled, sig, func() string {
		var b strings.Builder
		for _, t := range en {
			fmt.Fprintf(&b, "%d:%s ", t.id, t.op)
		}
		return b.String()
	})
	next := en[idx]
	s.cur = next
	if next == from {
		return
	}
	next.wake <- struct{}{}
	if from.done {
		return
	}
	s.park(from)
}

// park blocks the calling goroutine until it is scheduled again; if the
// execution is being torn down the goroutine exits (running its defers, during
// which all hooks are no-ops).
func (s *Sched) park(t *thread) {
	<-t.wake
	if s.aborting {
		runtime.Goexit()
	}
}

// point is the generic hook: the running thread announces op and yields.
func (s *Sched) point(op string, ready func() bool) {
	t := s.cur
	t.op = op
	t.ready = ready
	s.schedule(t)
	t.ready = nil
}

// Point yields before a non-blocking synchronisation operation.
func Point(op string) {
	if s := S; s != nil && !s.aborting {
		s.point(op, nil)
	}
}

// Block yields before a blocking operation that may proceed once ready()
// holds.  ready must be free of side effects.
func Block(op string, ready func() bool) {
	if s := S; s != nil && !s.aborting {
		s.point(op, ready)
	}
}

// Yield is a scheduling point for polling loops in harness code.
func Yield() { Point("yield") }

// Go starts fn as a new controlled thread (free-running: a goroutine).
func Go(fn func()) {
	s := S
	if s == nil {
		go fn()
		return
	}
	if s.aborting {
		return
	}
	_, file, line, _ := runtime.Caller(1)
	if i := strings.LastIndex(file, "/"); i >= 0 {
		file = file[i+1:]
	}
	s.newThread(fmt.Sprintf("go@%s:%d#%d", file, line, len(s.threads)), fn)
}

// GoNamed is Go with an explicit thread name (harness threads).
func GoNamed(name string, fn func()) {
	s := S
	if s == nil {
		go fn()
		return
	}
	if s.aborting {
		return
	}
	s.newThread(name, fn)
}

func closed(c <-chan struct{}) bool {
	select {
	case <-c:
		return true
	default:
		return false
	}
}

// Recv replaces the statement `<-c` for close-only signal channels.
func Recv(c <-chan struct{}) {
	s := S
	if s == nil {
		<-c
		return
	}
	if s.aborting {
		return
	}
	s.point("recv", func() bool { return closed(c) })
}

// BeforeClose is the scheduling point in front of close(c).
func BeforeClose() { Point("close") }

// Select replaces a select statement whose cases are all receives from
// close-only signal channels.  It returns the index of the case that fires,
// or -1 for the default case.
func Select(hasDefault bool, cs ...<-chan struct{}) int {
	s := S
	if s == nil {
		return realSelect(hasDefault, cs)
	}
	if s.aborting {
		if hasDefault {
			return -1
		}
		return 0
	}
	any := func() bool {
		for _, c := range cs {
			if closed(c) {
				return true
			}
		}
		return false
	}
	if hasDefault {
		s.point("select/default", nil)
	} else {
		s.point("select", any)
	}
	var ready []int
	for i, c := range cs {
		if closed(c) {
			ready = append(ready, i)
		}
	}
	if len(ready) == 0 {
		if !hasDefault {
			panic("vsched: select resumed with no ready case")
		}
		return -1
	}
	sig := uint32(17)
	for _, r := range ready {
		sig = sig*31 + uint32(r)
	}
	k := s.decide(KSelect, len(ready), true, sig, func() string { return fmt.Sprint("select ready ", ready) })
	return ready[k]
}

func realSelect(hasDefault bool, cs []<-chan struct{}) int {
	cases := make([]reflect.SelectCase, 0, len(cs)+1)
	for _, c := range cs {
		cases = append(cases, reflect.SelectCase{Dir: reflect.SelectRecv, Chan: reflect.ValueOf(c)})
	}
	if hasDefault {
		cases = append(cases, reflect.SelectCase{Dir: reflect.SelectDefault})
	}
	i, _, _ := reflect.Select(cases)
	if hasDefault && i == len(cs) {
		return -1
	}
	return i
}

// Choose is an environment choice among n alternatives; alternative 0 is the
// default (fault-free) answer, any other counts as one deviation.
func Choose(kind string, n int) int {
	s := S
	if s == nil || s.aborting {
		return 0
	}
	return s.decide(KEnv, n, false, strSig(kind), func() string { return kind })
}

// WaitUntil blocks the running harness thread until cond() holds.
func WaitUntil(what string, cond func() bool) {
	s := S
	if s == nil {
		for !cond() {
			runtime.Gosched()
		}
		return
	}
	if s.aborting {
		return
	}
	s.point("wait:"+what, cond)
}

// WaitQuiescent blocks the calling harness thread until no other thread is
// enabled (everything else has finished or is blocked): the horizon of a
// scenario whose environment may have stopped answering.
func WaitQuiescent() {
	s := S
	if s == nil || s.aborting {
		return
	}
	t := s.cur
	t.idle = true
	s.point("wait:quiescent", func() bool { return !t.idle })
}

// MapKeys returns the keys of map m in a deterministic (sorted) order; it
// replaces `range m` in instrumented code.
func MapKeys(m interface{}) []interface{} {
	v := reflect.ValueOf(m)
	keys := v.MapKeys()
	sort.Slice(keys, func(i, j int) bool { return lessValue(keys[i], keys[j]) })
	out := make([]interface{}, len(keys))
	for i, k := range keys {
		out[i] = k.Interface()
	}
	if n := len(out); n > 1 && n <= 3 {
		// thorough tier: the iteration order itself is an environment choice
		if s := S; s != nil && !s.aborting && PermuteMaps {
			nperm := 2
			if n == 3 {
				nperm = 6
			}
			p := s.decide(KEnv, nperm, false, uint32(1000+n), func() string { return fmt.Sprintf("maporder/%d", n) })
			out = permute(out, p)
		}
	}
	return out
}

// PermuteMaps makes map iteration order an explored choice.
var PermuteMaps bool

func permute(in []interface{}, p int) []interface{} {
	idx := []int{}
	for i := range in {
		idx = append(idx, i)
	}
	out := make([]interface{}, 0, len(in))
	n := len(in)
	f := 1
	for i := 2; i < n; i++ {
		f *= i
	}
	for k := n; k >= 1; k-- {
		q := p / f
		p = p % f
		out = append(out, in[idx[q]])
		idx = append(idx[:q], idx[q+1:]...)
		if k > 1 {
			f /= (k - 1)
		}
	}
	return out
}

func lessValue(a, b reflect.Value) bool {
	switch a.Kind() {
	case reflect.Int, reflect.Int8, reflect.Int16, reflect.Int32, reflect.Int64:
		return a.Int() < b.Int()
	case reflect.Uint, reflect.Uint8, reflect.Uint16, reflect.Uint32, reflect.Uint64, reflect.Uintptr:
		return a.Uint() < b.Uint()
	case reflect.String:
		return a.String() < b.String()
	}
	return fmt.Sprint(a.Interface()) < fmt.Sprint(b.Interface())
}

// ---- primitives used by vsync ----

// Mutex is the scheduler-aware mutex behind vsync.Mutex.
type Mutex struct {
	real sync.Mutex
	held bool
}

func (m *Mutex) Lock() {
	s := S
	if s == nil {
		m.real.Lock()
		return
	}
	if s.aborting {
		return
	}
	s.point("lock", func() bool { return !m.held })
	m.held = true
}

func (m *Mutex) Unlock() {
	s := S
	if s == nil {
		m.real.Unlock()
		return
	}
	if s.aborting {
		return
	}
	if !m.held {
		panic("sync: unlock of unlocked mutex")
	}
	m.held = false
}

// Held reports whether the mutex is held (controlled mode only; for oracles).
func (m *Mutex) Held() bool { return m.held }

// WaitGroup is the scheduler-aware wait group.
type WaitGroup struct {
	real sync.WaitGroup
	n    int
}

func (w *WaitGroup) Add(d int) {
	s := S
	if s == nil {
		w.real.Add(d)
		return
	}
	if s.aborting {
		return
	}
	s.point("wg.add", nil)
	w.n += d
	if w.n < 0 {
		panic("sync: negative WaitGroup counter")
	}
}

func (w *WaitGroup) Done() { w.Add(-1) }

func (w *WaitGroup) Wait() {
	s := S
	if s == nil {
		w.real.Wait()
		return
	}
	if s.aborting {
		return
	}
	s.point("wg.wait", func() bool { return w.n == 0 })
}

// Count returns the counter (controlled mode; for oracles).
func (w *WaitGroup) Count() int { return w.n }

// Once is the scheduler-aware sync.Once.
type Once struct {
	real    sync.Once
	done    bool
	running bool
}

func (o *Once) Do(f func()) {
	s := S
	if s == nil {
		o.real.Do(f)
		return
	}
	if s.aborting {
		return
	}
	s.point("once", func() bool { return !o.running })
	if o.done {
		return
	}
	o.running = true
	defer func() { o.running = false; o.done = true }()
	f()
}
