// Package vatomic stands in for sync/atomic in instrumented sources: every
// operation is preceded by a scheduling point (a no-op when free-running).
package vatomic

import (
	"sync/atomic"

	"capnproto.org/go/capnp/v3/internal/vsched"
)

func LoadUint64(p *uint64) uint64 {
	vsched.Point("atomic.load")
	return atomic.LoadUint64(p)
}

func StoreUint64(p *uint64, v uint64) {
	vsched.Point("atomic.store")
	atomic.StoreUint64(p, v)
}

func AddUint64(p *uint64, d uint64) uint64 {
	vsched.Point("atomic.add")
	return atomic.AddUint64(p, d)
}

func CompareAndSwapUint64(p *uint64, old, new uint64) bool {
	vsched.Point("atomic.cas")
	return atomic.CompareAndSwapUint64(p, old, new)
}

func LoadUint32(p *uint32) uint32 {
	vsched.Point("atomic.load")
	return atomic.LoadUint32(p)
}

func StoreUint32(p *uint32, v uint32) {
	vsched.Point("atomic.store")
	atomic.StoreUint32(p, v)
}

func AddUint32(p *uint32, d uint32) uint32 {
	vsched.Point("atomic.add")
	return atomic.AddUint32(p, d)
}

func CompareAndSwapUint32(p *uint32, old, new uint32) bool {
	vsched.Point("atomic.cas")
	return atomic.CompareAndSwapUint32(p, old, new)
}
