package vsched

import (
	"fmt"
	"os"
	"strconv"
	"strings"
	"time"
)

// runDeadline is the soft deadline of the whole check run (set by the runner
// through VLIB_DEADLINE_UNIX); an exploration that reaches it stops and reports
// Capped, exactly like an execution cap.
func runDeadline() time.Time {
	if v := os.Getenv("VLIB_DEADLINE_UNIX"); v != "" {
		if n, err := strconv.ParseInt(v, 10, 64); err == nil {
			return time.Unix(n, 0)
		}
	}
	return time.Time{}
}

// Config bounds an exploration.
type Config struct {
	MaxPreempt int // preemption bound (switching away from an enabled thread); <0 = unbounded
	MaxDev     int // deviation bound (environment answers other than the default); <0 = unbounded
	// MaxFree bounds the non-default choices taken at *free* thread decisions
	// (the running thread blocked or finished, several others enabled; the
	// default is the lowest thread id).  0 means unbounded (the classic
	// preemption-bounding semantics); n>0 allows at most n such choices per
	// execution (delay bounding).
	MaxFree int
	// MaxTotal, if > 0, bounds preemptions + free deviations + environment
	// deviations together.
	MaxTotal int
	MaxExecs int64 // stop after this many executions (0 = no cap); hitting it sets Stats.Capped
	MaxSteps int   // per-execution step limit (livelock horizon)
}

// Stats describes what an exploration covered.
type Stats struct {
	Execs        int64
	Steps        int64 // scheduling points executed over all executions (transitions)
	Decisions    int64
	MaxDecisions int
	Capped       bool
	Configs      map[uint32]struct{} // distinct scheduling configurations seen (enabled set x pending ops)
	Outcomes     map[string]int64
}

// Failure is a violating execution.
type Failure struct {
	Msg     string
	Choices []int
	Engine  bool // true: engine error (nondeterminism), not a verdict
	Result  *Result
}

func cost(d Decision, c int) (pre, dev, free int) {
	if c == 0 {
		return 0, 0, 0
	}
	switch d.Kind {
	case KThread:
		if !d.Free {
			return 1, 0, 0
		}
		return 0, 0, 1
	case KEnv:
		return 0, 1, 0
	}
	return 0, 0, 0
}

type frame struct {
	prefix []int
	sigs   []uint32
}

// Explore runs body under every schedule / environment answer sequence inside
// the bounds of cfg.  After each execution check is called; a non-empty return
// value is a violation and stops the exploration.  check may also return an
// outcome class via Result-independent means by calling st.Outcome.
func Explore(cfg Config, body func(), check func(r *Result) string) (Stats, *Failure) {
	st := Stats{Configs: map[uint32]struct{}{}, Outcomes: map[string]int64{}}
	stack := []frame{{}}
	deadline := runDeadline()
	for len(stack) > 0 {
		if cfg.MaxExecs > 0 && st.Execs >= cfg.MaxExecs {
			st.Capped = true
			break
		}
		if !deadline.IsZero() && st.Execs&31 == 31 && time.Now().After(deadline) {
			st.Capped = true
			break
		}
		f := stack[len(stack)-1]
		stack = stack[:len(stack)-1]
		r := Run(f.prefix, f.sigs, cfg.MaxSteps, body)
		st.Execs++
		st.Steps += int64(r.Steps)
		st.Decisions += int64(len(r.Decisions))
		if len(r.Decisions) > st.MaxDecisions {
			st.MaxDecisions = len(r.Decisions)
		}
		choices := make([]int, len(r.Decisions))
		sigs := make([]uint32, len(r.Decisions))
		for i, d := range r.Decisions {
			choices[i] = d.Chosen
			sigs[i] = d.Sig
			st.Configs[d.Sig] = struct{}{}
		}
		if r.Diverged != "" {
			return st, &Failure{Msg: "replay diverged: " + r.Diverged, Choices: choices, Engine: true, Result: r}
		}
		if len(r.Decisions) < len(f.prefix) {
			return st, &Failure{Msg: fmt.Sprintf("replay diverged: execution ended after %d decisions, prefix has %d", len(r.Decisions), len(f.prefix)), Choices: choices, Engine: true, Result: r}
		}
		if msg := check(r); msg != "" {
			return st, &Failure{Msg: msg, Choices: choices, Result: r}
		}
		pre, dev, free := 0, 0, 0
		for i, d := range r.Decisions {
			if i >= len(f.prefix) {
				for alt := d.N - 1; alt >= 1; alt-- {
					p, e, fr := cost(d, alt)
					if cfg.MaxPreempt >= 0 && pre+p > cfg.MaxPreempt {
						continue
					}
					if cfg.MaxDev >= 0 && dev+e > cfg.MaxDev {
						continue
					}
					if cfg.MaxFree > 0 && free+fr > cfg.MaxFree {
						continue
					}
					if cfg.MaxTotal > 0 && pre+p+dev+e+free+fr > cfg.MaxTotal {
						continue
					}
					np := make([]int, i+1)
					copy(np, choices[:i])
					np[i] = alt
					stack = append(stack, frame{prefix: np, sigs: sigs[:i+1]})
				}
			}
			p, e, fr := cost(d, d.Chosen)
			pre += p
			dev += e
			free += fr
		}
	}
	return st, nil
}

// Replay runs one recorded choice list with descriptions on.
func Replay(choices []int, maxSteps int, body func()) *Result {
	WantDesc = true
	defer func() { WantDesc = false }()
	return Run(choices, nil, maxSteps, body)
}

// Describe renders a result for a violation report.
func (r *Result) Describe() string {
	var b strings.Builder
	fmt.Fprintf(&b, "steps=%d threads=%d decisions=%d\n", r.Steps, r.Threads, len(r.Decisions))
	for _, p := range r.Panics {
		fmt.Fprintf(&b, "PANIC: %s\n", p)
	}
	if len(r.Blocked) > 0 {
		fmt.Fprintf(&b, "BLOCKED at end: %s\n", strings.Join(r.Blocked, " | "))
	}
	if r.Livelock {
		fmt.Fprintf(&b, "LIVELOCK: step limit reached\n")
	}
	nz := []string{}
	for i, d := range r.Decisions {
		if d.Chosen != 0 {
			nz = append(nz, fmt.Sprintf("#%d(%c)=%d/%d %s", i, d.Kind, d.Chosen, d.N, d.Desc))
		}
	}
	fmt.Fprintf(&b, "non-default choices: %s\n", strings.Join(nz, "; "))
	if len(r.Log) > 0 {
		n := len(r.Log)
		lo := 0
		if n > 80 {
			lo = n - 80
		}
		fmt.Fprintf(&b, "log:\n  %s\n", strings.Join(r.Log[lo:], "\n  "))
	}
	return b.String()
}
