// Package vctx stands in for package context in instrumented sources.  The
// types are aliases of the standard ones, so contexts flow freely between
// instrumented and uninstrumented code; only the act of cancelling becomes a
// scheduling point, and timeouts never fire (real time is outside the model).
package vctx

import (
	"context"
	"time"

	"capnproto.org/go/capnp/v3/internal/vsched"
)

type Context = context.Context
type CancelFunc = context.CancelFunc

var (
	Canceled         = context.Canceled
	DeadlineExceeded = context.DeadlineExceeded
)

func Background() Context { return context.Background() }
func TODO() Context       { return context.TODO() }

func WithValue(parent Context, key, val interface{}) Context {
	return context.WithValue(parent, key, val)
}

func WithCancel(parent Context) (Context, CancelFunc) {
	c, cancel := context.WithCancel(parent)
	return c, func() {
		vsched.Point("cancel")
		cancel()
	}
}

// WithTimeout never expires under the scheduler.
func WithTimeout(parent Context, d time.Duration) (Context, CancelFunc) {
	if !vsched.Active() {
		return context.WithTimeout(parent, d)
	}
	return WithCancel(parent)
}

func WithDeadline(parent Context, t time.Time) (Context, CancelFunc) {
	if !vsched.Active() {
		return context.WithDeadline(parent, t)
	}
	return WithCancel(parent)
}
