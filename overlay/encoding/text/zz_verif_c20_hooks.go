package text

// VerifC20Budgets is a /verif hook (overlay only, read-only): remaining
// traversal budgets of the schema messages cached by this Encoder.
func (enc *Encoder) VerifC20Budgets() []uint64 { return enc.nodes.VerifC20Budgets() }
