package capnp

// Overlay-only, read-only hook for the C04/C05/C16 harnesses (guard:
// verif-overlay; this file is never part of /repo).

// VerifAddr returns where the object p refers to starts: segment id and byte
// offset of the struct / of the first list element (for a composite list: of
// the first element, i.e. one word behind the tag).  ok is false for null and
// interface pointers.
func (p Ptr) VerifAddr() (seg SegmentID, off uint32, ok bool) {
	if p.seg == nil || p.flags.ptrType() == interfacePtrType {
		return 0, 0, false
	}
	return p.seg.id, uint32(p.off), true
}
