package capnp

// Overlay-only, read-only hooks for the /verif harnesses (guard:
// verif-overlay; this file is never part of /repo).

import "sync/atomic"

// VerifReadLimit returns the remaining traversal budget of m in bytes,
// initialising it from TraverseLimit exactly as the first read would.
func (m *Message) VerifReadLimit() uint64 {
	m.rlimitInit.Do(m.initReadLimit)
	return atomic.LoadUint64(&m.rlimit)
}
