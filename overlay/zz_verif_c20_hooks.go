package capnp

import "sync/atomic"

// VerifC20ReadLimit is a /verif hook (overlay only, read-only): the remaining
// traversal budget of m, as canRead would see it.
func (m *Message) VerifC20ReadLimit() uint64 {
	m.rlimitInit.Do(m.initReadLimit)
	return atomic.LoadUint64(&m.rlimit)
}
