#!/usr/bin/env python3
"""Regenerates /verif/MANIFEST.json from the table in tools/checks.json and
validates it against the schema.  A property without an implemented harness is
listed under not_applicable with the reason given in checks.json."""
import json, os, sys
V = "/verif"
tab = json.load(open(f"{V}/tools/checks.json"))
props = [json.loads(l)["id"] for l in open(f"{V}/properties.jsonl")]
checks, na = [], []
for pid in props:
    e = tab["checks"].get(pid)
    if e and os.path.isdir(f"{V}/overlay/internal/verif/{pid.lower()}") and not e.get("disabled"):
        checks.append({
            "property_id": pid,
            "quick_cmd": f"bin/vcheck {pid} --tier quick",
            "thorough_cmd": f"bin/vcheck {pid} --tier thorough",
            "evidence_file": f"/verif/evidence/{pid}.json",
            "replay_cmd_template": f"bin/vcheck {pid} --replay {{path}}",
            "engine": e["engine"],
            "level_claimed": {"category": e["level"], "text": e["text"], "design_ref": e.get("design_ref", "DESIGN.md §5 " + pid)},
            "level_note": e["note"],
            "technique": e["technique"],
        })
    else:
        na.append({"property_id": pid, "reason": (e or {}).get("na_reason", tab["default_na_reason"])})
m = {
    "version": 1,
    "setup_cmd": tab["setup_cmd"],
    "hooks": tab["hooks"],
    "engines": tab["engines"],
    "checks": checks,
    "notes": tab["notes"],
    "not_applicable": na,
}
json.dump(m, open(f"{V}/MANIFEST.json", "w"), indent=1)
try:
    import jsonschema
    jsonschema.validate(m, json.load(open("/root/.vp/MANIFEST.schema.json")))
    print("MANIFEST.json valid;", len(checks), "checks,", len(na), "not_applicable")
except ImportError:
    print("jsonschema not available; wrote MANIFEST.json unvalidated")
