#!/usr/bin/env python3
"""seed_table.py <run_seeded log> — renders the seeded-change table (markdown)."""
import json, sys, collections
rows = collections.OrderedDict()
for l in open(sys.argv[1]):
    p = l.split()
    if len(p) < 3 or not p[0][0] == 'C':
        continue
    sid, chk, verdict = p[0], p[1], p[2]
    key = ""
    if "key=" in l:
        key = l.split("key=", 1)[1].split(" cases=")[0].strip()
    rows.setdefault(sid, []).append((chk, verdict, key))
print("| seed | breaks | change | needs | quick checks run → result |")
print("|---|---|---|---|---|")
for sid, rs in rows.items():
    m = json.load(open(f"/verif/seeded/{sid}/meta.json"))
    res = "; ".join(f"{c}: **{v.lower()}**" + (f" (`{k[:60]}`)" if k and v == "CAUGHT" else "") for c, v, k in rs)
    print(f"| {sid} | {m['breaks_property']} | {m['change']} | {m['needs_to_manifest']} | {res} |")
