#!/usr/bin/env python3
"""Generate a go build -overlay file.

Every file under /verif/overlay/<rel> is mapped to /repo/<rel> (virtual
packages and hook files).  Extra directories given as DIR=RELPREFIX arguments
are mapped likewise (used for instrumented copies of repo files)."""
import json, os, sys
out = sys.argv[1]
repo = os.environ.get("VERIF_REPO", "/repo")
home = os.environ.get("VERIF_HOME", "/verif")
pairs = [(home + "/overlay", "")]
for a in sys.argv[2:]:
    d, rel = a.split("=", 1)
    pairs.append((d, rel))
rep = {}
for base, rel in pairs:
    for root, dirs, files in os.walk(base):
        for f in files:
            if not (f.endswith(".go") or f.endswith(".s")):
                continue
            src = os.path.join(root, f)
            r = os.path.relpath(src, base)
            rep[os.path.normpath(os.path.join(repo, rel, r))] = src
with open(out, "w") as fh:
    json.dump({"Replace": rep}, fh, indent=1)
