#!/bin/bash
# verify_seed.sh <seeddir> <pkgdir> <runpattern>
# Confirms in a scratch worktree of /repo HEAD that patch.diff (1) applies and
# builds, (2) keeps the repository's whole test suite green, (3) makes the
# demonstration fail, and that the demonstration passes without it.
export GOFLAGS=-mod=mod GOPROXY=off GOSUMDB=off GOTOOLCHAIN=local
sd=$1; pkg=$2; pat=${3:-.}
wt=$(mktemp -d /tmp/vseed.XXXXXX); rmdir $wt
git -C /repo worktree add -q $wt HEAD || exit 2
res() { echo "$sd: $1"; git -C /repo worktree remove --force $wt; exit 0; }
cd $wt
cp $sd/demo_test.go $pkg/zz_seed_demo_test.go
if ! timeout 300 go test -vet=off -count=1 -run "$pat" ./$pkg >/tmp/vseed.clean.log 2>&1; then res "DEMO-FAILS-ON-CLEAN-TREE $(tail -3 /tmp/vseed.clean.log | tr '\n' ' ')"; fi
rm $pkg/zz_seed_demo_test.go
git apply $sd/patch.diff || res "PATCH-DOES-NOT-APPLY"
go build ./... >/tmp/vseed.build.log 2>&1 || res "DOES-NOT-BUILD"
if ! go test -vet=off -count=1 ./... >/tmp/vseed.suite.log 2>&1; then res "SUITE-FAILS-WITH-PATCH $(grep -m3 FAIL /tmp/vseed.suite.log | tr '\n' ' ')"; fi
cp $sd/demo_test.go $pkg/zz_seed_demo_test.go
if timeout 300 go test -vet=off -count=1 -run "$pat" ./$pkg >/tmp/vseed.patched.log 2>&1; then res "DEMO-PASSES-WITH-PATCH"; fi
res "CONFIRMED (applies, builds, suite green, demo fails with patch / passes without)"
