// Command instrument writes scheduler-aware copies of selected source files of
// the repository (see DESIGN.md §1 and Appendix C).
//
//	instrument OUTDIR [-atomic] PKGDIR:file1.go,file2.go|* ...
//
// It must run with the repository root as working directory.  Every construct
// it does not model is a hard error: "engine cannot instrument <file:line>".
package main

import (
	"bytes"
	"fmt"
	"go/ast"
	"go/importer"
	"go/parser"
	"go/printer"
	"go/token"
	"go/types"
	"os"
	"path/filepath"
	"sort"
	"strconv"
	"strings"
)

const (
	vschedPath = "capnproto.org/go/capnp/v3/internal/vsched"
	vsyncPath  = "capnproto.org/go/capnp/v3/internal/vsched/vsync"
	vctxPath   = "capnproto.org/go/capnp/v3/internal/vsched/vctx"
	vatomPath  = "capnproto.org/go/capnp/v3/internal/vsched/vatomic"
)

var (
	fset      = token.NewFileSet()
	errs      []string
	useAtomic bool
	stats     = map[string]int{}
)

func fail(pos token.Pos, format string, a ...interface{}) {
	errs = append(errs, fmt.Sprintf("engine cannot instrument %s: %s", fset.Position(pos), fmt.Sprintf(format, a...)))
}

func main() {
	args := os.Args[1:]
	if len(args) < 2 {
		fmt.Fprintln(os.Stderr, "usage: instrument OUTDIR [-atomic] PKGDIR:files ...")
		os.Exit(2)
	}
	out := args[0]
	for _, spec := range args[1:] {
		if spec == "-atomic" {
			useAtomic = true
			continue
		}
		parts := strings.SplitN(spec, ":", 2)
		if len(parts) != 2 {
			fmt.Fprintln(os.Stderr, "bad spec", spec)
			os.Exit(2)
		}
		doPackage(out, parts[0], parts[1])
	}
	if len(errs) > 0 {
		for _, e := range errs {
			fmt.Fprintln(os.Stderr, e)
		}
		os.Exit(1)
	}
	keys := []string{}
	for k := range stats {
		keys = append(keys, k)
	}
	sort.Strings(keys)
	for _, k := range keys {
		fmt.Printf("%s=%d ", k, stats[k])
	}
	fmt.Println()
}

func doPackage(out, dir, filespec string) {
	entries, err := os.ReadDir(dir)
	if err != nil {
		fmt.Fprintln(os.Stderr, err)
		os.Exit(2)
	}
	var all []*ast.File
	names := map[*ast.File]string{}
	for _, e := range entries {
		n := e.Name()
		if !strings.HasSuffix(n, ".go") || strings.HasSuffix(n, "_test.go") {
			continue
		}
		f, err := parser.ParseFile(fset, filepath.Join(dir, n), nil, parser.ParseComments)
		if err != nil {
			fmt.Fprintln(os.Stderr, err)
			os.Exit(2)
		}
		if ignoredByBuildTag(f) {
			continue
		}
		all = append(all, f)
		names[f] = n
	}
	want := map[string]bool{}
	if filespec != "*" {
		for _, n := range strings.Split(filespec, ",") {
			want[n] = true
		}
	}
	// type-check the package (for map-range detection)
	info := &types.Info{Types: map[ast.Expr]types.TypeAndValue{}}
	conf := types.Config{Importer: importer.ForCompiler(fset, "source", nil), Error: func(err error) {}}
	pkg, _ := conf.Check(dir, fset, all, info)
	for _, f := range all {
		n := names[f]
		if filespec != "*" && !want[n] {
			continue
		}
		delete(want, n)
		in := &instr{file: f, info: info, pkg: pkg}
		in.run()
		var buf bytes.Buffer
		if err := (&printer.Config{Mode: printer.UseSpaces | printer.TabIndent, Tabwidth: 8}).Fprint(&buf, fset, f); err != nil {
			fmt.Fprintln(os.Stderr, err)
			os.Exit(2)
		}
		dst := filepath.Join(out, dir, n)
		os.MkdirAll(filepath.Dir(dst), 0755)
		if err := os.WriteFile(dst, buf.Bytes(), 0644); err != nil {
			fmt.Fprintln(os.Stderr, err)
			os.Exit(2)
		}
	}
	for n := range want {
		errs = append(errs, fmt.Sprintf("engine cannot instrument %s/%s: file not found", dir, n))
	}
}

func ignoredByBuildTag(f *ast.File) bool {
	for _, cg := range f.Comments {
		if cg.Pos() > f.Package {
			break
		}
		for _, c := range cg.List {
			t := c.Text
			if strings.HasPrefix(t, "//go:build ") || strings.HasPrefix(t, "// +build ") {
				if strings.Contains(t, "ignore") || strings.Contains(t, "gofuzz") || strings.Contains(t, "!go1.") {
					return true
				}
			}
		}
	}
	return false
}

type instr struct {
	file       *ast.File
	info       *types.Info
	pkg        *types.Package
	needVsched bool
}

func sel(pkg, name string) ast.Expr {
	return &ast.SelectorExpr{X: ast.NewIdent(pkg), Sel: ast.NewIdent(name)}
}

func call(fun ast.Expr, args ...ast.Expr) *ast.CallExpr {
	return &ast.CallExpr{Fun: fun, Args: args}
}

func (in *instr) vs(name string, args ...ast.Expr) *ast.CallExpr {
	in.needVsched = true
	return call(sel("vsched", name), args...)
}

func (in *instr) run() {
	f := in.file
	// 1. imports
	for _, imp := range f.Imports {
		p, _ := strconv.Unquote(imp.Path.Value)
		switch p {
		case "sync":
			if imp.Name != nil {
				fail(imp.Pos(), "renamed import of sync")
			}
			imp.Path.Value = strconv.Quote(vsyncPath)
			imp.Name = ast.NewIdent("sync")
			stats["import.sync"]++
		case "context":
			if imp.Name != nil {
				fail(imp.Pos(), "renamed import of context")
			}
			imp.Path.Value = strconv.Quote(vctxPath)
			imp.Name = ast.NewIdent("context")
			stats["import.context"]++
		case "sync/atomic":
			if useAtomic {
				imp.Path.Value = strconv.Quote(vatomPath)
				imp.Name = ast.NewIdent("atomic")
				stats["import.atomic"]++
			}
		case "time":
			// allowed only for Duration constants and the like; timers are not modelled
		}
	}
	// 2. unsupported constructs
	ast.Inspect(f, func(n ast.Node) bool {
		switch x := n.(type) {
		case *ast.SelectorExpr:
			if id, ok := x.X.(*ast.Ident); ok && id.Obj == nil {
				switch id.Name {
				case "sync":
					switch x.Sel.Name {
					case "Mutex", "WaitGroup", "Once":
					default:
						fail(x.Pos(), "sync.%s is not modelled", x.Sel.Name)
					}
				case "context":
					switch x.Sel.Name {
					case "Context", "CancelFunc", "Background", "TODO", "WithCancel", "WithTimeout", "WithDeadline", "WithValue", "Canceled", "DeadlineExceeded":
					default:
						fail(x.Pos(), "context.%s is not modelled", x.Sel.Name)
					}
				case "time":
					switch x.Sel.Name {
					case "Duration", "Millisecond", "Second", "Microsecond", "Nanosecond", "Minute":
					default:
						fail(x.Pos(), "time.%s is not modelled (timers and clocks are outside the scheduler)", x.Sel.Name)
					}
				}
			}
		case *ast.SendStmt:
			fail(x.Pos(), "channel send statement")
		}
		return true
	})
	// 3. collect statement lists, children first
	var lists []*[]ast.Stmt
	var labeled []*ast.LabeledStmt
	recvOK := map[*ast.UnaryExpr]bool{}
	ast.Inspect(f, func(n ast.Node) bool {
		switch x := n.(type) {
		case *ast.BlockStmt:
			lists = append(lists, &x.List)
		case *ast.CaseClause:
			lists = append(lists, &x.Body)
		case *ast.CommClause:
			lists = append(lists, &x.Body)
			if x.Comm != nil {
				if es, ok := x.Comm.(*ast.ExprStmt); ok {
					if u, ok := es.X.(*ast.UnaryExpr); ok && u.Op == token.ARROW {
						recvOK[u] = true
					}
				}
			}
		case *ast.LabeledStmt:
			labeled = append(labeled, x)
		case *ast.ExprStmt:
			if u, ok := x.X.(*ast.UnaryExpr); ok && u.Op == token.ARROW {
				recvOK[u] = true
			}
		}
		return true
	})
	ast.Inspect(f, func(n ast.Node) bool {
		if u, ok := n.(*ast.UnaryExpr); ok && u.Op == token.ARROW && !recvOK[u] {
			fail(u.Pos(), "value-receiving channel operation")
		}
		return true
	})
	for i := len(labeled) - 1; i >= 0; i-- {
		l := labeled[i]
		if r := in.rewrite(l.Stmt); r != nil {
			if len(r) != 1 {
				fail(l.Pos(), "labelled statement needs a multi-statement rewrite")
				continue
			}
			l.Stmt = r[0]
		}
	}
	for i := len(lists) - 1; i >= 0; i-- {
		lp := lists[i]
		var out []ast.Stmt
		changed := false
		for _, s := range *lp {
			if r := in.rewrite(s); r != nil {
				out = append(out, r...)
				changed = true
			} else {
				out = append(out, s)
			}
		}
		if changed {
			*lp = out
		}
	}
	// 4. add the vsched import
	if in.needVsched {
		spec := &ast.ImportSpec{Name: ast.NewIdent("vsched"), Path: &ast.BasicLit{Kind: token.STRING, Value: strconv.Quote(vschedPath)}}
		done := false
		for _, d := range f.Decls {
			if gd, ok := d.(*ast.GenDecl); ok && gd.Tok == token.IMPORT {
				gd.Specs = append(gd.Specs, spec)
				if !gd.Lparen.IsValid() {
					gd.Lparen = gd.Pos()
					gd.Rparen = gd.End()
				}
				done = true
				break
			}
		}
		if !done {
			gd := &ast.GenDecl{Tok: token.IMPORT, Specs: []ast.Spec{spec}}
			f.Decls = append([]ast.Decl{gd}, f.Decls...)
		}
		f.Imports = append(f.Imports, spec)
	}
}

// rewrite returns the replacement of statement s, or nil to keep it.
func (in *instr) rewrite(s ast.Stmt) []ast.Stmt {
	switch x := s.(type) {
	case *ast.ExprStmt:
		if u, ok := x.X.(*ast.UnaryExpr); ok && u.Op == token.ARROW {
			stats["recv"]++
			return []ast.Stmt{&ast.ExprStmt{X: in.vs("Recv", u.X)}}
		}
		if c, ok := x.X.(*ast.CallExpr); ok {
			if id, ok := c.Fun.(*ast.Ident); ok && id.Name == "close" && id.Obj == nil {
				stats["close"]++
				return []ast.Stmt{&ast.ExprStmt{X: in.vs("BeforeClose")}, s}
			}
		}
	case *ast.DeferStmt:
		if id, ok := x.Call.Fun.(*ast.Ident); ok && id.Name == "close" && id.Obj == nil {
			switch x.Call.Args[0].(type) {
			case *ast.Ident, *ast.SelectorExpr:
			default:
				fail(x.Pos(), "defer close(<non-identifier>)")
				return nil
			}
			stats["defer-close"]++
			body := &ast.BlockStmt{List: []ast.Stmt{&ast.ExprStmt{X: in.vs("BeforeClose")}, &ast.ExprStmt{X: x.Call}}}
			lit := &ast.FuncLit{Type: &ast.FuncType{Params: &ast.FieldList{}}, Body: body}
			return []ast.Stmt{&ast.DeferStmt{Call: call(lit)}}
		}
	case *ast.GoStmt:
		stats["go"]++
		return in.rewriteGo(x)
	case *ast.SelectStmt:
		stats["select"]++
		return in.rewriteSelect(x)
	case *ast.RangeStmt:
		if in.info != nil {
			if tv, ok := in.info.Types[x.X]; ok && tv.Type != nil {
				if m, ok := tv.Type.Underlying().(*types.Map); ok {
					stats["maprange"]++
					return in.rewriteMapRange(x, m)
				}
			} else {
				fail(x.Pos(), "range operand has no type information (type check failed?)")
			}
		}
	}
	return nil
}

func (in *instr) rewriteGo(g *ast.GoStmt) []ast.Stmt {
	c := g.Call
	var pre []ast.Stmt
	fun := c.Fun
	switch c.Fun.(type) {
	case *ast.FuncLit:
	case *ast.Ident:
	default:
		pre = append(pre, &ast.AssignStmt{Lhs: []ast.Expr{ast.NewIdent("vsched__f")}, Tok: token.DEFINE, Rhs: []ast.Expr{c.Fun}})
		fun = ast.NewIdent("vsched__f")
	}
	var args []ast.Expr
	if len(c.Args) > 0 {
		var lhs []ast.Expr
		for i := range c.Args {
			id := ast.NewIdent(fmt.Sprintf("vsched__a%d", i))
			lhs = append(lhs, id)
			args = append(args, ast.NewIdent(id.Name))
		}
		pre = append(pre, &ast.AssignStmt{Lhs: lhs, Tok: token.DEFINE, Rhs: c.Args})
	}
	inner := &ast.CallExpr{Fun: fun, Args: args, Ellipsis: c.Ellipsis}
	if _, ok := fun.(*ast.FuncLit); ok {
		inner.Fun = &ast.ParenExpr{X: fun}
	}
	lit := &ast.FuncLit{Type: &ast.FuncType{Params: &ast.FieldList{}}, Body: &ast.BlockStmt{List: []ast.Stmt{&ast.ExprStmt{X: inner}}}}
	stmts := append(pre, &ast.ExprStmt{X: in.vs("Go", lit)})
	return []ast.Stmt{&ast.BlockStmt{List: stmts}}
}

func (in *instr) rewriteSelect(s *ast.SelectStmt) []ast.Stmt {
	hasDefault := false
	var chans []ast.Expr
	var clauses []ast.Stmt
	idx := 0
	for _, cs := range s.Body.List {
		cc := cs.(*ast.CommClause)
		if cc.Comm == nil {
			hasDefault = true
			clauses = append(clauses, &ast.CaseClause{Body: cc.Body})
			continue
		}
		es, ok := cc.Comm.(*ast.ExprStmt)
		if !ok {
			fail(cc.Pos(), "select case is not a plain receive")
			return nil
		}
		u, ok := es.X.(*ast.UnaryExpr)
		if !ok || u.Op != token.ARROW {
			fail(cc.Pos(), "select case is not a plain receive")
			return nil
		}
		chans = append(chans, u.X)
		clauses = append(clauses, &ast.CaseClause{List: []ast.Expr{&ast.BasicLit{Kind: token.INT, Value: strconv.Itoa(idx)}}, Body: cc.Body})
		idx++
	}
	hd := "false"
	if hasDefault {
		hd = "true"
	} else {
		// keeps the statement terminating when every case returns, as the
		// select was; Select never returns -1 without a default case
		clauses = append(clauses, &ast.CaseClause{Body: []ast.Stmt{&ast.ExprStmt{X: call(ast.NewIdent("panic"), &ast.BasicLit{Kind: token.STRING, Value: strconv.Quote("vsched: select without default returned no case")})}}})
	}
	args := append([]ast.Expr{ast.NewIdent(hd)}, chans...)
	sw := &ast.SwitchStmt{Tag: in.vs("Select", args...), Body: &ast.BlockStmt{List: clauses}}
	return []ast.Stmt{sw}
}

func (in *instr) rewriteMapRange(r *ast.RangeStmt, m *types.Map) []ast.Stmt {
	switch r.X.(type) {
	case *ast.Ident, *ast.SelectorExpr:
	default:
		fail(r.Pos(), "range over a map expression that is not an identifier or selector")
		return nil
	}
	qual := func(p *types.Package) string {
		if p == in.pkg {
			return ""
		}
		return p.Name()
	}
	kt := types.TypeString(m.Key(), qual)
	ktExpr, err := parser.ParseExpr(kt)
	if err != nil {
		fail(r.Pos(), "cannot express map key type %s", kt)
		return nil
	}
	keyName := "vsched__key"
	var head []ast.Stmt
	tok := r.Tok
	if tok != token.DEFINE && tok != token.ASSIGN {
		tok = token.DEFINE
	}
	keyIsBlank := r.Key == nil || isBlank(r.Key)
	var keyExpr ast.Expr
	if keyIsBlank {
		keyExpr = ast.NewIdent("vsched__k")
		head = append(head, &ast.AssignStmt{Lhs: []ast.Expr{keyExpr}, Tok: token.DEFINE, Rhs: []ast.Expr{&ast.TypeAssertExpr{X: ast.NewIdent(keyName), Type: ktExpr}}})
	} else {
		keyExpr = r.Key
		head = append(head, &ast.AssignStmt{Lhs: []ast.Expr{r.Key}, Tok: tok, Rhs: []ast.Expr{&ast.TypeAssertExpr{X: ast.NewIdent(keyName), Type: ktExpr}}})
		if tok == token.DEFINE {
			head = append(head, &ast.AssignStmt{Lhs: []ast.Expr{ast.NewIdent("_")}, Tok: token.ASSIGN, Rhs: []ast.Expr{r.Key}})
		}
	}
	if r.Value != nil && !isBlank(r.Value) {
		head = append(head, &ast.AssignStmt{Lhs: []ast.Expr{r.Value}, Tok: tok, Rhs: []ast.Expr{&ast.IndexExpr{X: r.X, Index: keyExpr}}})
		if tok == token.DEFINE {
			head = append(head, &ast.AssignStmt{Lhs: []ast.Expr{ast.NewIdent("_")}, Tok: token.ASSIGN, Rhs: []ast.Expr{r.Value}})
		}
	}
	body := &ast.BlockStmt{List: append(head, r.Body.List...)}
	nr := &ast.RangeStmt{Key: ast.NewIdent("_"), Value: ast.NewIdent(keyName), Tok: token.DEFINE, X: in.vs("MapKeys", r.X), Body: body}
	return []ast.Stmt{nr}
}

func isBlank(e ast.Expr) bool {
	id, ok := e.(*ast.Ident)
	return ok && id.Name == "_"
}
