module verif/instrument

go 1.23
