#!/bin/bash
# run_seeded.sh [id ...]  — for every /verif/seeded/<id>/ (or the given ids):
# apply patch.diff to /repo, run the quick check(s) named in meta.json
# ("checks"), undo the patch, and print one line per (seed, check):
#   <seed> <check> CAUGHT|MISSED|ENGINE-ERROR  <first violation key>
# /repo must be clean before and is clean afterwards.
cd /verif
ids="$@"; [ -z "$ids" ] && ids=$(ls seeded)
tier=${TIER:-quick}
for id in $ids; do
  d=seeded/$id
  [ -f $d/patch.diff ] || continue
  if [ -n "$(git -C /repo status --porcelain)" ]; then echo "/repo not clean"; exit 2; fi
  checks=$(python3 -c "import json;print(' '.join(json.load(open('$d/meta.json'))['checks']))")
  if ! git -C /repo apply $PWD/$d/patch.diff; then echo "$id - PATCH-DOES-NOT-APPLY"; continue; fi
  for c in $checks; do
    out=$(bin/vcheck $c --tier $tier -replays /tmp/seeded-replays/$id 2>&1); rc=$?
    key=$(echo "$out" | grep -m1 "^violation key=" | cut -c1-120)
    case $rc in
      0) echo "$id $c MISSED";;
      1) echo "$id $c CAUGHT $key";;
      *) echo "$id $c ENGINE-ERROR $(echo "$out" | tail -1 | cut -c1-200)";;
    esac
  done
  git -C /repo checkout -- .
done
rm -rf /tmp/seeded-replays
# evidence files were rewritten by runs on a patched tree: restore the committed ones
git -C /verif checkout -- evidence 2>/dev/null
